// Probe runner for C05 (Node 20): runs a program and its lowered variants in a fresh vm
// context with probe functions, once per environment, and compares the observations
// (probe/trap trace + completion).  stdin: {programs:[{id, src, variants:[{key, src}],
// probes:[ids], envs:[[class,...]], exp:[{t:[...], c:"..."}] | null}]}
// stdout: {results:[...]} (only counts and mismatches; traces stay here).
// The conventions (what p/k/idt/h/ai/si/pr do, how values are formatted) are those stated at
// the head of part (b) of spec/Lowering.tla.
'use strict';
const vm = require('vm');

const RUNTIME = `(function () {
  'use strict';
  let LOG = [], ENV = {}, CACHE = new Map();
  const info = new WeakMap();
  const SYM = Symbol('s'), HSYM = Symbol('hs');
  const DISPOSE = Symbol.dispose || Symbol.for('Symbol.dispose');
  const ADISPOSE = Symbol.asyncDispose || Symbol.for('Symbol.asyncDispose');
  const log = s => { LOG.push(s); };
  const fmtKey = k => typeof k === 'symbol' ? '@' + k.description : String(k);
  function errName(e) {
    if (e instanceof Error) {
      if (e.name === 'SuppressedError') return 'SuppressedError(' + errName(e.error) + ',' + errName(e.suppressed) + ')';
      return e.name;
    }
    return fmt(e, 0);
  }
  function fmt(v, depth) {
    depth = depth || 0;
    switch (typeof v) {
      case 'undefined': return 'undef';
      case 'number': return Object.is(v, -0) ? 'num:-0' : 'num:' + String(v);
      case 'string': return 'str:' + v;
      case 'boolean': return 'bool:' + v;
      case 'bigint': return 'big:' + v;
      case 'symbol': return '@' + v.description;
    }
    if (v === null) return 'null';
    const i = info.get(v);
    if (i) return i.kind + ':' + i.path;
    if (typeof v === 'function') return 'class';
    if (depth > 3) return '...';
    if (Array.isArray(v)) { const out = []; for (let j = 0; j < v.length; j++) out.push(fmt(v[j], depth + 1)); return '[' + out.join(',') + ']'; }
    if (v instanceof Error) return 'err:' + errName(v);
    if (v instanceof Promise) return 'promise';
    const proto = Object.getPrototypeOf(v);
    if (proto !== Object.prototype && proto !== null) return 'inst';
    const ents = [];
    for (const key of Reflect.ownKeys(v)) {
      const d = Object.getOwnPropertyDescriptor(v, key);
      ents.push(fmtKey(key) + ':' + ('value' in d ? fmt(d.value, depth + 1) : 'accessor'));
    }
    return '{' + ents.join(',') + '}';
  }
  const fmtList = vs => '[' + Array.prototype.map.call(vs, x => fmt(x, 1)).join(',') + ']';
  function keyVal(path, key) {
    switch (key) {
      case 'u': return undefined; case 'n': return null; case 'z': return 0; case 't': return 3;
      case 'o': return mkObj(path + '.o'); case 'f': return mkFn(path + '.f', false); case 'g': return mkFn(path + '.g', true);
    }
    return undefined;
  }
  const KNOWN = ['u', 'n', 'z', 't', 'o', 'f', 'g'];
  function handler(path, isFn) {
    return {
      get(t, key) {
        if (typeof key === 'symbol' || key === 'then') return undefined;
        if (isFn && (key === 'call' || key === 'apply' || key === 'bind')) return Function.prototype[key];
        log('get:' + path + '.' + key);
        return keyVal(path, key);
      },
      set(t, key, v) { log('set:' + path + '.' + fmtKey(key) + '=' + fmt(v)); return true; },
      has(t, key) { log('has:' + path + '.' + fmtKey(key)); return KNOWN.includes(key); },
      deleteProperty(t, key) { log('del:' + path + '.' + fmtKey(key)); return true; },
      apply(t, thisArg, args) {
        log('call:' + path + ' this=' + fmt(thisArg) + ' args=' + fmtList(args));
        return t.__retobj ? mkObj(path + '()') : 5;
      },
    };
  }
  function mkObj(path) {
    let o = CACHE.get('o' + path);
    if (!o) { o = new Proxy({}, handler(path, false)); info.set(o, { kind: 'obj', path }); CACHE.set('o' + path, o); }
    return o;
  }
  function mkFn(path, retobj) {
    let f = CACHE.get('f' + path);
    if (!f) {
      const target = function () {};
      target.__retobj = retobj;
      f = new Proxy(target, handler(path, true)); info.set(f, { kind: 'fn', path }); CACHE.set('f' + path, f);
    }
    return f;
  }
  function mkG(path) {
    const proto = {};
    Object.defineProperty(proto, 'inh', { get() { log('get:' + path + '.inh'); return 9; }, enumerable: true, configurable: true });
    const o = Object.create(proto);
    const def = (key, val, enumerable) => Object.defineProperty(o, key, { get() { log('get:' + path + '.' + fmtKey(key)); return val; }, enumerable, configurable: true });
    def('b', undefined, true); def('1', 1, true); def('a', 7, true); def('h', 6, false); def(SYM, 8, true); def(HSYM, 5, false);
    info.set(o, { kind: 'gobj', path });
    return o;
  }
  class PErr extends Error { constructor(i) { super('probe ' + i); this.name = 'PErr' + i; } }
  class DErr extends Error { constructor(path) { super('dispose ' + path); this.name = 'DErr(' + path + ')'; } }
  function mkDisp(path, cl) {
    const o = {};
    if (cl === 'D' || cl === 'DX') o[DISPOSE] = function () { log('dispose:' + path); if (cl === 'DX') throw new DErr(path); };
    else o[ADISPOSE] = async function () { log('adispose:' + path); if (cl === 'ADX') throw new DErr(path); };
    info.set(o, { kind: 'disp', path });
    return o;
  }

  // ---- object-model shapes (spec/Lowering.tla, "object model" section)
  // base classes: what the prototype (and, as a static, the constructor) carries under the keys
  // x, 1 and y: B0 nothing, BA accessor pair, BG getter only, BS setter only, BR read-only data
  // property, BD writable data property, BF nothing but the constructor returns a frozen object
  const BKEYS = ['x', '1'];
  function mkBase(path, cl) {
    const Base = cl === 'BF'
      ? class { constructor() { log('B'); return Object.freeze(Object.create(new.target.prototype)); } }
      : class { constructor() { log('B'); } };
    for (const tgt of [Base.prototype, Base]) {
      const where = tgt === Base ? path + '.static' : path;
      for (const key of BKEYS) {
        const get = function () { log('bget:' + where + '.' + key); return 9; };
        const set = function (v) { log('bset:' + where + '.' + key + '=' + fmt(v)); };
        switch (cl) {
          case 'BA': Object.defineProperty(tgt, key, { get, set, enumerable: false, configurable: true }); break;
          case 'BG': Object.defineProperty(tgt, key, { get, enumerable: false, configurable: true }); break;
          case 'BS': Object.defineProperty(tgt, key, { set, enumerable: false, configurable: true }); break;
          case 'BR': Object.defineProperty(tgt, key, { value: 9, writable: false, enumerable: true, configurable: true }); break;
          case 'BD': Object.defineProperty(tgt, key, { value: 9, writable: true, enumerable: true, configurable: true }); break;
        }
      }
    }
    info.set(Base, { kind: 'base', path });
    info.set(Base.prototype, { kind: 'baseproto', path });
    return Base;
  }
  // own-property descriptor of o[key]: "absent" | "own:EWC:<value>" (lower case = attribute false) | "own:acc:Ec"
  function od(o, key) {
    if (key === '@s') key = SYM;
    const d = Object.getOwnPropertyDescriptor(o, key);
    if (!d) return 'absent';
    const a = (d.enumerable ? 'E' : 'e') + ('value' in d ? (d.writable ? 'W' : 'w') : '') + (d.configurable ? 'C' : 'c');
    return 'value' in d ? 'own:' + a + ':' + fmt(d.value, 1) : 'own:acc:' + a;
  }
  // all own keys with descriptors plus the class of the prototype
  function shape(o) {
    // (length / name / prototype of a class are not part of the observation: function names are not compared)
    const skip = typeof o === 'function' ? ['length', 'name', 'prototype'] : [];
    const ents = Reflect.ownKeys(o).filter(key => !skip.includes(key)).map(key => fmtKey(key) + '=' + od(o, key));
    const pr = Object.getPrototypeOf(o);
    const pn = pr === Object.prototype ? 'Object' : pr === null ? 'null' : pr === Function.prototype ? 'Function' : info.has(pr) ? fmt(pr) : 'other';
    return '<' + pn + '|' + ents.join(',') + '>';
  }
  // reading through the chain (logs accessor calls of the shapes above)
  function rd(o, key) { try { return fmt(o[key], 1); } catch (e) { return 'throw:' + errName(e); } }
  // sources of a copy: OP own enumerable data property "__proto__" (as JSON.parse makes it) next to "a";
  // PX a Proxy logging the traps a copy performs; GX an object whose getter "a" throws;
  // PA an object whose PROTOTYPE has a setter for "a"/"__proto__"-free accessor shapes (used as literal __proto__);
  // FZ a frozen object with own "a"
  class GErr extends Error { constructor(path) { super('getter ' + path); this.name = 'GErr(' + path + ')'; } }
  const MARK = {};
  info.set(MARK, { kind: 'mark', path: 'm' });
  function mkSrc(path, cl) {
    let o;
    if (cl === 'OP') {
      o = {};
      Object.defineProperty(o, 'a', { value: 1, writable: true, enumerable: true, configurable: true });
      Object.defineProperty(o, '__proto__', { value: MARK, writable: true, enumerable: true, configurable: true });
      return o;
    }
    if (cl === 'GX') {
      o = {};
      Object.defineProperty(o, 'a', { get() { log('get:' + path + '.a'); throw new GErr(path); }, enumerable: true, configurable: true });
      Object.defineProperty(o, 'c', { get() { log('get:' + path + '.c'); return 2; }, enumerable: true, configurable: true });
      info.set(o, { kind: 'gx', path });
      return o;
    }
    if (cl === 'PA') {
      o = {};
      Object.defineProperty(o, 'a', { get() { log('pget:' + path + '.a'); return 9; }, set(v) { log('pset:' + path + '.a=' + fmt(v)); }, enumerable: false, configurable: true });
      Object.defineProperty(o, 'b', { value: 9, writable: false, enumerable: true, configurable: true });
      Object.defineProperty(o, '1', { set(v) { log('pset:' + path + '.1=' + fmt(v)); }, enumerable: false, configurable: true });
      info.set(o, { kind: 'pa', path });
      return o;
    }
    if (cl === 'FZ') return Object.freeze({ a: 1 });
    // PX
    const t = { b: 2, a: 1 };
    Object.defineProperty(t, 'h', { value: 6, enumerable: false, configurable: true });
    t[SYM] = 8;
    o = new Proxy(t, {
      ownKeys(t) { log('ownKeys:' + path); return Reflect.ownKeys(t); },
      getOwnPropertyDescriptor(t, key) { log('gopd:' + path + '.' + fmtKey(key)); return Reflect.getOwnPropertyDescriptor(t, key); },
      get(t, key, r) { log('get:' + path + '.' + fmtKey(key)); return Reflect.get(t, key, r); },
      has(t, key) { log('has:' + path + '.' + fmtKey(key)); return Reflect.has(t, key); },
      getPrototypeOf(t) { log('getProto:' + path); return Reflect.getPrototypeOf(t); },
    });
    return o;
  }
  // thenables: TH resolves with 4, THX rejects with TErr, THS calls resolve synchronously twice (second ignored)
  class TErr extends Error { constructor(path) { super('then ' + path); this.name = 'TErr(' + path + ')'; } }
  function mkThen(path, cl) {
    const o = {};
    Object.defineProperty(o, 'then', { get() {
      log('get:' + path + '.then');
      return function (res, rej) {
        log('then:' + path + ' this=' + (this === o ? 'self' : 'other'));
        if (cl === 'THX') rej(new TErr(path)); else { res(4); if (cl === 'THS') res(6); }
      };
    }, enumerable: false, configurable: true });
    info.set(o, { kind: 'then', path });
    return o;
  }
  // error timing of a call: "sync:<error>" if the call itself throws, otherwise logs k:ret and
  // reports how the returned promise / first next() settles
  async function timing(call, isGen) {
    let r;
    try { r = call(); } catch (e) { return 'sync:' + errName(e); }
    log('k:ret');
    try { const v = await (isGen ? r.next() : r); return 'ok:' + fmt(isGen ? v.value : v, 1); } catch (e) { return 'rej:' + errName(e); }
  }
  function p(i) {
    log('p' + i);
    const cl = ENV[i], path = 'p' + i;
    switch (cl) {
      case 'U': return undefined; case 'N': return null; case 'Z': return 0; case 'T': return 3; case 'W': return 2;
      case 'O': return mkObj(path); case 'F': return mkFn(path, false);
      case 'S': return 't'; case 'Su': return 'u'; case 'Sa': return 'a'; case 'Sx': return 'x'; case 'Sp': return '__proto__'; case 'W1': return 1;
      case 'G': return mkG(path);
      case 'D': case 'DX': case 'AD': case 'ADX': return mkDisp(path, cl);
      case 'B0': case 'BA': case 'BG': case 'BS': case 'BR': case 'BD': case 'BF': return mkBase(path, cl);
      case 'OP': case 'PX': case 'GX': case 'PA': case 'FZ': return mkSrc(path, cl);
      case 'TH': case 'THX': case 'THS': return mkThen(path, cl);
      case 'X': throw new PErr(i);
    }
    throw new Error('no environment value for probe ' + i);
  }
  function k(v) { log('k:' + fmt(v)); return typeof v === 'string' ? v : 'kk'; }
  function idt(v) {
    if (info.has(v)) { log('idt:' + fmt(v)); return; }
    if (typeof v === 'function') log('idt:class');
    else if (typeof v === 'object' && v !== null) log(Object.getPrototypeOf(v) === Object.prototype ? 'idt:plain' : 'idt:inst');
    else log('idt:' + fmt(v));
  }
  class B { constructor() { log('B'); } }
  function h(v) { log('h:' + fmt(v)); return B; }
  function ai(n) {
    return { [Symbol.asyncIterator]() {
      log('ai.iter'); let i = 0;
      return { next() { log('ai.next'); return Promise.resolve(i < n ? { value: i++, done: false } : { value: undefined, done: true }); },
               return(v) { log('ai.return'); return Promise.resolve({ value: v, done: true }); } };
    } };
  }
  function si(n) {
    return { [Symbol.iterator]() {
      log('si.iter'); let i = 0;
      return { next() { log('si.next'); return i < n ? { value: i++, done: false } : { value: undefined, done: true }; },
               return(v) { log('si.return'); return { value: v, done: true }; } };
    } };
  }
  const pr = v => Promise.resolve(v);
  let registered = null;
  Object.assign(globalThis, { p, k, idt, h, ai, si, pr, od, shape, rd, timing, fmtv: v => fmt(v, 1), __run(fn) { registered = fn; } });
  return {
    take() { const f = registered; registered = null; return f; },
    begin(env) { LOG = []; ENV = env; CACHE = new Map(); return [mkObj('this'), mkObj('arg0')]; },
    log() { return LOG; },
    completion(ok, v) { try { return ok ? 'ret:' + fmt(v) : 'throw:' + errName(v); } catch (e) { return 'fmt-failed:' + String(e); } },
  };
})()`;

const TIMEOUT = Symbol('timeout');

function compile(ctx, rt, src) {
  // every variant gets its own function scope so that top-level helper declarations of one
  // variant cannot be used by another
  const script = new vm.Script('(function () {\n' + src + '\n})()', { filename: 'program.js' });
  script.runInContext(ctx, { timeout: 30000 });
  const fn = rt.take();
  if (typeof fn !== 'function') throw new Error('program did not call __run');
  return fn;
}

async function runOnce(rt, fn, env) {
  const [thisObj, arg0] = rt.begin(env);
  let c;
  try {
    let r = fn.call(thisObj, arg0);
    if (r !== null && typeof r === 'object' && typeof r.then === 'function') {
      let timer;
      const t = new Promise(res => { timer = setTimeout(res, 3000, TIMEOUT); });
      r = await Promise.race([r, t]);
      clearTimeout(timer);
      if (r === TIMEOUT) return { t: rt.log().slice(), c: 'timeout' };
    }
    c = rt.completion(true, r);
  } catch (e) {
    c = rt.completion(false, e);
  }
  return { t: rt.log().slice(), c };
}

const same = (a, b) => a.c === b.c && a.t.length === b.t.length && a.t.every((x, i) => x === b.t[i]);

async function runProgram(pg) {
  const res = { id: pg.id, nativeOK: false, nativeErr: '', runs: 0, envs: pg.envs.length, mismatches: [], nMismatch: 0,
                specMismatches: [], nSpecMismatch: 0, specOnly: [], nSpecOnly: 0, nSpecCompared: 0, nSpecOnlyCompared: 0,
                unpredicted: 0, variantErrors: [], sample: null };
  const ctx = vm.createContext({ setTimeout, clearTimeout });
  const rt = new vm.Script(RUNTIME, { filename: 'runtime.js' }).runInContext(ctx);
  let native = null;
  try { native = compile(ctx, rt, pg.src); res.nativeOK = true; } catch (e) { res.nativeErr = String(e && e.message || e).slice(0, 200); }
  const variants = [];
  for (const v of pg.variants) {
    try { variants.push({ key: v.key, fn: compile(ctx, rt, v.src) }); }
    catch (e) { res.variantErrors.push({ variant: v.key, err: String(e && e.message || e).slice(0, 300) }); }
  }
  for (let j = 0; j < pg.envs.length; j++) {
    const env = {};
    pg.probes.forEach((id, m) => { env[id] = pg.envs[j][m]; });
    const spec = pg.exp ? pg.exp[j] : null;
    const predicted = spec && spec.c !== 'UNPRED';
    if (spec && !predicted) res.unpredicted++;
    let nat = null;
    if (native) {
      nat = await runOnce(rt, native, env); res.runs++;
      if (j === 0) res.sample = { env: pg.envs[j], native: nat };
      if (pg.dump) (res.dump = res.dump || []).push({ env: pg.envs[j], native: nat, spec });
      if (predicted) {
        res.nSpecCompared++;
        if (!same(spec, nat)) { res.nSpecMismatch++; if (res.specMismatches.length < 2) res.specMismatches.push({ env: pg.envs[j], spec, native: nat }); }
      }
    }
    for (const v of variants) {
      const low = await runOnce(rt, v.fn, env); res.runs++;
      if (pg.dump && (!nat || !same(nat, low))) res.dump.push({ env: pg.envs[j], variant: v.key, lowered: low });
      if (nat) {
        if (!same(nat, low)) {
          res.nMismatch++;
          if (res.mismatches.length < 200) res.mismatches.push({ variant: v.key, env: pg.envs[j], native: nat, lowered: low,
                                                               specAgreesWithNative: predicted ? same(spec, nat) : null });
        }
      } else if (predicted) {
        res.nSpecOnlyCompared++;
        if (!same(spec, low)) { res.nSpecOnly++; if (res.specOnly.length < 3) res.specOnly.push({ variant: v.key, env: pg.envs[j], spec, lowered: low }); }
        if (j === 0 && !res.sample) res.sample = { env: pg.envs[j], lowered: low };
      }
    }
  }
  return res;
}

async function main() {
  process.on('unhandledRejection', () => {});
  const chunks = [];
  for await (const c of process.stdin) chunks.push(c);
  const input = JSON.parse(Buffer.concat(chunks).toString('utf8'));
  const results = [];
  for (const pg of input.programs) {
    try { results.push(await runProgram(pg)); }
    catch (e) { results.push({ id: pg.id, fatal: String(e && e.stack || e).slice(0, 500) }); }
  }
  process.stdout.write(JSON.stringify({ results }));
}
main().catch(e => { process.stderr.write(String(e && e.stack || e)); process.exit(1); });
