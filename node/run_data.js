// run_data.js: the data-loader clause of C02.  A bundle whose entry point
// imports (or requires) N data files exports the N imported values as an
// array; each value must be exactly the file's text / bytes / JSON value.
//
// stdin : {"itemsets":{<name>:[{"name","file","ctx","units":[..],"spec":bool}]},
//          "runs":[{"name","dir","file","format","global","outdir","loader","polyfill",
//                   "itemset":<name>,"subset":[indices]|absent}]}
// stdout: {"runs":[{"name","error":null|string,"bad":[{"i","want","got"}],
//                   "drift":[{"i","spec","platform"}],"checked":n}]}
//
// The file bytes are read from the project directory.  The expectations are
// computed here from the bytes alone, with the platform's own decoders
// (TextDecoder, Buffer, fetch() of data: URLs, JSON.parse); where the
// specification (DataLoad) predicts the value (text, json: the UTF-16 code
// units of the string) the prediction must agree with the platform, otherwise
// the item is reported as drift and not judged.
'use strict'
const fs = require('fs')
const path = require('path')
const url = require('url')
const vm = require('vm')

const fromBase64 = s => new Uint8Array(Buffer.from(s, 'base64'))

function show(v) {
  if (typeof v === 'string') return 'string:' + JSON.stringify(v)
  if (v instanceof Uint8Array) return 'bytes:' + Buffer.from(v).toString('hex')
  try { return typeof v + ':' + JSON.stringify(v) } catch (e) { return typeof v }
}

// structural equality of JSON values, own keys in order, -0 distinguished
function same(a, b) {
  if (typeof a !== typeof b) return false
  if (a === null || b === null) return a === b
  if (typeof a === 'number') return Object.is(a, b)
  if (typeof a !== 'object') return a === b
  if (Array.isArray(a) !== Array.isArray(b)) return false
  // a JSON object always has Object.prototype (an own "__proto__" key must not become the prototype)
  if (!Array.isArray(a) && Object.getPrototypeOf(b) !== Object.prototype) return false
  const ka = Object.getOwnPropertyNames(a), kb = Object.getOwnPropertyNames(b)
  if (ka.length !== kb.length) return false
  for (let i = 0; i < ka.length; i++) {
    if (ka[i] !== kb[i]) return false
    if (!same(a[ka[i]], b[kb[i]])) return false
  }
  return true
}

async function load(run) {
  const file = path.join(run.dir, run.file)
  if (run.format === 'esm') {
    const ns = await import(url.pathToFileURL(file).href)
    return ns.default
  }
  if (run.format === 'cjs') {
    const m = require(file)
    return Array.isArray(m) ? m : m.default
  }
  vm.runInThisContext(fs.readFileSync(file, 'utf8'), { filename: file })
  const g = globalThis[run.global]
  try { delete globalThis[run.global] } catch (e) { globalThis[run.global] = undefined }
  return Array.isArray(g) ? g : g && g.default
}

function fromUnits(units) {
  let s = ''
  for (let i = 0; i < units.length; i += 4096) s += String.fromCharCode.apply(null, units.slice(i, i + 4096))
  return s
}

async function check(run, itemsets) {
  const res = { name: run.name, error: null, bad: [], drift: [], checked: 0 }
  const all = itemsets[run.itemset]
  const idx = run.subset ? run.subset : all.map((_, i) => i)
  if (run.polyfill) {
    if (!Uint8Array.fromBase64) Object.defineProperty(Uint8Array, 'fromBase64', { value: fromBase64, configurable: true, writable: true })
  } else if (Uint8Array.fromBase64 && Uint8Array.fromBase64 === fromBase64) {
    delete Uint8Array.fromBase64
  }
  let values
  try {
    values = await load(run)
  } catch (e) {
    res.error = 'loading the bundle threw: ' + (e && e.message)
    return res
  }
  if (!Array.isArray(values) || values.length !== idx.length) {
    res.error = 'the bundle exports ' + show(values).slice(0, 200) + ' instead of ' + idx.length + ' values'
    return res
  }
  for (let k = 0; k < idx.length; k++) {
    const i = idx[k]
    const item = all[i]
    const bytes = fs.readFileSync(path.join(run.dir, item.file))
    const got = values[k]
    let ok = false, want
    try {
      switch (run.loader) {
        case 'text':
          // documented: the text loader decodes UTF-8 and strips a leading BOM (CHANGELOG 2025, #3935)
          want = new TextDecoder('utf-8').decode(bytes)
          if (item.spec && fromUnits(item.units) !== want) {
            res.drift.push({ i, spec: show(fromUnits(item.units)), platform: show(want) })
            continue
          }
          ok = got === want
          break
        case 'base64':
          want = bytes.toString('base64')
          ok = got === want
          break
        case 'binary':
          want = new Uint8Array(bytes)
          ok = got instanceof Uint8Array && Buffer.compare(Buffer.from(got.buffer, got.byteOffset, got.byteLength), bytes) === 0
          break
        case 'dataurl': {
          want = 'a data: URL that decodes to ' + bytes.toString('hex')
          if (typeof got === 'string' && got.startsWith('data:')) {
            const r = await fetch(got)
            const body = Buffer.from(await r.arrayBuffer())
            ok = Buffer.compare(body, bytes) === 0
            if (!ok) want += ' (decodes to ' + body.toString('hex') + ')'
          }
          break
        }
        case 'file': {
          want = 'the path of an output file holding ' + bytes.toString('hex')
          if (typeof got === 'string') {
            const p = path.join(run.dir, run.outdir, got)
            ok = fs.existsSync(p) && Buffer.compare(fs.readFileSync(p), bytes) === 0
          }
          break
        }
        case 'json': {
          let text = bytes.toString('utf8')
          if (text.charCodeAt(0) === 0xFEFF) text = text.slice(1)
          want = JSON.parse(text)
          if (item.spec) {
            const str = fromUnits(item.units)
            const sv = item.ctx === 'val' ? { a: str } : item.ctx === 'key' ? { [str]: 1 } : str
            // an own "__proto__" key cannot be written as a computed member of a literal only for that name; not in the alphabet
            if (!same(sv, want)) {
              res.drift.push({ i, spec: show(sv), platform: show(want) })
              continue
            }
          }
          ok = same(want, got)
          break
        }
      }
    } catch (e) {
      want = 'oracle error: ' + (e && e.message)
    }
    res.checked++
    if (!ok) res.bad.push({ i, want: show(want), got: show(got) })
  }
  return res
}

async function main() {
  const input = JSON.parse(fs.readFileSync(0, 'utf8'))
  const out = []
  for (const run of input.runs) out.push(await check(run, input.itemsets))
  process.stdout.write(JSON.stringify({ runs: out }))
}
main().catch(e => { process.stderr.write(String(e && e.stack || e)); process.exit(3) })
