// Public-API witness for kind=import: import.meta.resolve(specifier, parentURL)
// (Node 20: synchronous; the parent argument needs --experimental-import-meta-resolve).
export function resolveFrom(specifier, parentURL) {
  return import.meta.resolve(specifier, parentURL);
}
