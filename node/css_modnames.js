// C12, CSS modules: evaluates the CommonJS bundles esbuild produced for `import * as m from './x.module.css'; module.exports = m`
// and returns what JavaScript sees: for every job {id, js} the exported names -> class/id strings (default export and named exports).
// stdin {"jobs":[{"id","js"}]} -> stdout {"results":[{"id","named":{...},"default":{...},"error"}]}
'use strict';
const vm = require('vm');
let input = '';
process.stdin.on('data', (d) => { input += d; });
process.stdin.on('end', () => {
  const jobs = JSON.parse(input).jobs || [];
  const results = [];
  for (const job of jobs) {
    const r = { id: job.id, named: {}, default: {}, error: null };
    try {
      const module = { exports: {} };
      vm.runInNewContext(job.js, { module, exports: module.exports, require: () => { throw new Error('no require'); } }, { timeout: 2000 });
      const m = module.exports;
      for (const k of Object.keys(m)) {
        if (k === 'default') { for (const d of Object.keys(m.default || {})) r.default[d] = String(m.default[d]); } else r.named[k] = String(m[k]);
      }
    } catch (e) { r.error = String(e && e.message || e); }
    results.push(r);
  }
  process.stdout.write(JSON.stringify({ results }));
});
