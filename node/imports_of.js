// imports_of.js: re-parse emitted (or input) code and report what it really
// imports/exports.  stdin: {files:[{id, code, kind:"js"|"css", sourceType?}]}
// stdout: {results:[{id, ok, error?, imports:[{path, kind}], exports:[name],
//          strings:[literal], smurl?, legal?}]}
// JS is parsed with the acorn that Node embeds (run with --expose-internals);
// CSS with a small tokenizer (comments, strings, url(), @import).
'use strict';
const acorn = require('internal/deps/acorn/acorn/dist/acorn');
const walk = require('internal/deps/acorn/acorn-walk/dist/walk');

function litString(n) {
  if (!n) return null;
  if (n.type === 'Literal' && typeof n.value === 'string') return n.value;
  if (n.type === 'TemplateLiteral' && n.expressions.length === 0 && n.quasis.length === 1) return n.quasis[0].value.cooked;
  return null;
}

function patNames(p, out) {
  if (!p) return;
  switch (p.type) {
    case 'Identifier': out.push(p.name); break;
    case 'ObjectPattern': for (const q of p.properties) patNames(q.type === 'RestElement' ? q.argument : q.value, out); break;
    case 'ArrayPattern': for (const q of p.elements) patNames(q, out); break;
    case 'AssignmentPattern': patNames(p.left, out); break;
    case 'RestElement': patNames(p.argument, out); break;
  }
}

function expName(n) { return n.type === 'Identifier' ? n.name : String(n.value); }

function parseJS(f) {
  const res = { id: f.id, ok: true, imports: [], exports: [], strings: [], comments: [] };
  let ast;
  const opts = { ecmaVersion: 'latest', sourceType: f.sourceType || 'module', allowHashBang: true, allowReturnOutsideFunction: true,
    onComment: (block, text) => { res.comments.push(text); } };
  try { ast = acorn.parse(f.code, opts); }
  catch (e) {
    try { opts.sourceType = opts.sourceType === 'module' ? 'script' : 'module'; res.comments = []; ast = acorn.parse(f.code, opts); }
    catch (e2) { res.ok = false; res.error = String(e.message); return res; }
  }
  // esbuild's shim for require() in non-CommonJS output ("__require") may be renamed by the
  // minifier: a variable whose initialiser contains the shim's error text is an alias of require
  const requireNames = new Set(['require', '__require']);
  walk.full(ast, (n) => {
    if (n.type === 'VariableDeclarator' && n.id.type === 'Identifier' && n.init &&
      f.code.slice(n.init.start, n.init.end).includes('Dynamic require of')) requireNames.add(n.id.name);
  });
  walk.full(ast, (n) => {
    switch (n.type) {
      case 'ImportDeclaration':
        res.imports.push({ path: n.source.value, kind: 'import-statement' }); break;
      case 'ExportAllDeclaration':
        res.imports.push({ path: n.source.value, kind: 'import-statement' });
        if (n.exported) res.exports.push(expName(n.exported)); else res.exportStar = true;
        break;
      case 'ExportNamedDeclaration':
        if (n.source) res.imports.push({ path: n.source.value, kind: 'import-statement' });
        for (const s of n.specifiers) res.exports.push(expName(s.exported));
        if (n.declaration) {
          if (n.declaration.id) res.exports.push(n.declaration.id.name);
          else if (n.declaration.declarations) for (const d of n.declaration.declarations) patNames(d.id, res.exports);
        }
        break;
      case 'ExportDefaultDeclaration': res.exports.push('default'); break;
      case 'ImportExpression': {
        const s = litString(n.source);
        if (s !== null) res.imports.push({ path: s, kind: 'dynamic-import' }); else res.dynamicNonLiteral = true;
        break;
      }
      case 'CallExpression': {
        const c = n.callee;
        if (c.type === 'Identifier' && requireNames.has(c.name) && n.arguments.length === 1) {
          const s = litString(n.arguments[0]);
          if (s !== null) res.imports.push({ path: s, kind: 'require-call' });
        } else if (c.type === 'MemberExpression' && !c.computed && c.object.type === 'Identifier' && requireNames.has(c.object.name) &&
          c.property.name === 'resolve' && n.arguments.length === 1) {
          const s = litString(n.arguments[0]);
          if (s !== null) res.imports.push({ path: s, kind: 'require-resolve' });
        }
        break;
      }
      case 'Literal': if (typeof n.value === 'string') res.strings.push(n.value); break;
      case 'TemplateElement': if (n.value && typeof n.value.cooked === 'string') res.strings.push(n.value.cooked); break;
    }
  });
  // specifiers of import/export declarations are Literals too: strings keeps them; callers filter
  res.exports = Array.from(new Set(res.exports)).sort();
  trailers(f.code, res);
  return res;
}

// links that esbuild appends as comments (taken from real comments, not from string contents)
function trailers(code, res) {
  for (const c of res.comments) {
    let m = /^[#@] sourceMappingURL=(\S+)/.exec(c);
    if (m) res.smurl = m[1];
    m = /^! For license information please see (.*?) ?$/.exec(c);
    if (m) res.legal = m[1];
  }
}

function parseCSS(f) {
  const res = { id: f.id, ok: true, imports: [], exports: [], strings: [], comments: [] };
  const s = f.code; let i = 0; const n = s.length;
  const isWS = (c) => c === ' ' || c === '\n' || c === '\t' || c === '\r' || c === '\f';
  function skipWS() { for (;;) { while (i < n && isWS(s[i])) i++; if (s.startsWith('/*', i)) { const e = s.indexOf('*/', i + 2); i = e < 0 ? n : e + 2; } else break; } }
  function readString() { // at a quote
    const q = s[i++]; let out = '';
    while (i < n && s[i] !== q) {
      if (s[i] === '\\') {
        i++;
        if (i < n && /[0-9a-fA-F]/.test(s[i])) { let h = ''; while (i < n && h.length < 6 && /[0-9a-fA-F]/.test(s[i])) h += s[i++]; if (i < n && isWS(s[i])) i++; out += String.fromCodePoint(parseInt(h, 16)); }
        else if (i < n && s[i] === '\n') i++;
        else if (i < n) out += s[i++];
      } else out += s[i++];
    }
    i++; return out;
  }
  function readURL() { // just after "url("
    skipWS();
    let out;
    if (s[i] === '"' || s[i] === "'") { out = readString(); skipWS(); }
    else { out = ''; while (i < n && s[i] !== ')' && !isWS(s[i])) { if (s[i] === '\\' && i + 1 < n) { i++; } out += s[i++]; } skipWS(); }
    if (s[i] === ')') i++;
    return out;
  }
  while (i < n) {
    if (s.startsWith('/*', i)) { const e = s.indexOf('*/', i + 2); const t = s.slice(i + 2, e < 0 ? n : e); res.comments.push(t); i = e < 0 ? n : e + 2; continue; }
    if (s[i] === '"' || s[i] === "'") { res.strings.push(readString()); continue; }
    if (s[i] === '@' && /^@import(?![-\w])/i.test(s.slice(i, i + 8))) {
      i += 7; skipWS();
      let p = null;
      if (s[i] === '"' || s[i] === "'") p = readString();
      else if (/^url\(/i.test(s.slice(i, i + 4))) { i += 4; p = readURL(); }
      if (p !== null) res.imports.push({ path: p, kind: 'import-rule' });
      continue;
    }
    if (/^url\($/i.test(s.slice(i, i + 4)) && (i === 0 || !/[-\w]/.test(s[i - 1]))) { i += 4; res.imports.push({ path: readURL(), kind: 'url-token' }); continue; }
    i++;
  }
  trailers(f.code, res);
  return res;
}

let input = '';
process.stdin.setEncoding('utf8');
process.stdin.on('data', (d) => { input += d; });
process.stdin.on('end', () => {
  const req = JSON.parse(input);
  const results = [];
  for (const f of req.files) {
    try { results.push(f.kind === 'css' ? parseCSS(f) : parseJS(f)); }
    catch (e) { results.push({ id: f.id, ok: false, error: String(e && e.stack || e), imports: [], exports: [], strings: [], comments: [] }); }
  }
  process.stdout.write(JSON.stringify({ results }));
});
