// run_c06.js — execute small scripts in fresh V8 contexts and report the string they leave in globalThis.__out.
// stdin : {"items":[{"id":"...", "srcs":["script text", ...]}]}
// stdout: {"results":[{"id":"...", "outs":[{"out":"...", "error":""}, ...]}]}
// Each script is run with vm.runInNewContext (own global object, no host objects except console.log capture).
'use strict';
const vm = require('vm');

function runOne(src) {
  const logs = [];
  const sandbox = { console: { log: (...a) => logs.push(a.map(String).join(' ')) } };
  sandbox.globalThis = sandbox;
  try {
    vm.runInNewContext(src, sandbox, { timeout: 60000 });
    let out = sandbox.__out;
    if (typeof out !== 'string') out = out === undefined ? '<no __out>' : JSON.stringify(out);
    return { out: out + (logs.length ? '\nLOG:' + logs.join('|') : ''), error: '' };
  } catch (e) {
    let name = 'error';
    try { name = (e && e.constructor && e.constructor.name) + ': ' + (e && e.message); } catch (x) {}
    return { out: '', error: name };
  }
}

async function main() {
  const chunks = [];
  for await (const c of process.stdin) chunks.push(c);
  const inp = JSON.parse(Buffer.concat(chunks).toString('utf8'));
  const results = [];
  for (const item of inp.items) results.push({ id: item.id, outs: item.srcs.map(runOne) });
  process.stdout.write(JSON.stringify({ results }));
}
main().catch(e => { console.error(e); process.exit(1); });
