// C04 runner (Node 20, flags: --experimental-vm-modules --expose-internals --no-warnings).
// stdin : {cases:[{id, alone, files:{path:text}, entry, cjs:[path], readExports, globalName, bundles:[{name, format, code}]}]}
// stdout: {results:[{id, alone:{trace,err}, native:{trace,err}, inputFree:[..],
//                    bundles:[{name, trace, err, dangling:[..], parseError}]}]}
// (i)  GROUND TRUTH: the statement alone, as a module in a fresh context: does the probe fire / does it throw?
// (ii) the native (unbundled) module graph, and every bundle, each in its own fresh context;
//      bundles run as modules or under "use strict", so a reference to a removed declaration throws.
// Probe events: P(id) -> id; traps of the global Proxy GP -> "F:<trap>:<key>"; PU() / PA() -> "F.ann";
// an exception escaping the entry -> "threw:<ErrorName>".
// (iii) readExports: synchronously after the entry has been evaluated (before any microtask runs) every export
//      of the entry point is read: name=typeof:value for primitives, exported functions are called (typeof of /
//      primitive result or threw:<ErrorName>); the same observation on the native module graph is the reference.
//      CommonJS files of the native graph are vm.SyntheticModules (default + the statically assigned names);
//      the native context has a global require() that returns the namespace of an already evaluated module.
'use strict';
const vm = require('vm');
let acorn = null, walk = null;
try {
  acorn = require('internal/deps/acorn/acorn/dist/acorn');
  walk = require('internal/deps/acorn/acorn-walk/dist/walk');
} catch (e) { /* static scan unavailable */ }

process.on('unhandledRejection', () => {});

const PRELUDE = `
(function (rec) {
  const g = globalThis;
  const def = (k, v) => Object.defineProperty(g, k, { value: v, writable: true, configurable: true, enumerable: false });
  def('P', function P(id) { rec(String(id)); });
  def('PU', function PU() { rec('F.ann'); });   // made pure by the pure option
  def('PA', function PA() { rec('F.ann'); });   // made pure only by annotation comments
  const ks = (k) => typeof k === 'symbol' ? String(k) : String(k);
  const h = {};
  for (const t of ['get', 'set', 'has', 'deleteProperty', 'ownKeys', 'getOwnPropertyDescriptor', 'defineProperty',
                   'getPrototypeOf', 'setPrototypeOf', 'isExtensible', 'preventExtensions', 'apply', 'construct']) {
    h[t] = function (...a) {
      let key = '';
      if (t === 'get' || t === 'set' || t === 'has' || t === 'deleteProperty' || t === 'getOwnPropertyDescriptor' || t === 'defineProperty') key = ':' + ks(a[1]);
      rec('F:' + t + key);
      return Reflect[t](...a);
    };
  }
  def('GP', new Proxy(function () {}, h));
})
`;

function makeContext(trace) {
  const ctx = vm.createContext({});
  const rec = (s) => { trace.push(s); };
  vm.runInContext(PRELUDE, ctx)(rec);
  return ctx;
}

function isTimeout(e) {
  return !!(e && (e.code === 'ERR_SCRIPT_EXECUTION_TIMEOUT' || /execution timed out/i.test(String(e.message))));
}

function errName(e) {
  try {
    if (e && typeof e === 'object' && typeof e.name === 'string') return e.name;
    return 'value:' + String(e);
  } catch (_) { return 'unknown'; }
}

function settle() {
  return new Promise((res) => setImmediate(() => setImmediate(() => setImmediate(res))));
}

function normalize(parts) {
  const out = [];
  for (const p of parts) {
    if (p === '' || p === '.') continue;
    if (p === '..') out.pop(); else out.push(p);
  }
  return out.join('/');
}

function resolveSpec(files, spec, from) {
  let cand;
  if (spec.startsWith('./') || spec.startsWith('../')) {
    const dir = from.split('/').slice(0, -1);
    cand = normalize(dir.concat(spec.split('/')));
  } else {
    cand = 'node_modules/' + spec;
    if (!(cand in files)) cand = 'node_modules/' + spec + '/index.js';
  }
  if (!(cand in files)) throw new Error('cannot resolve ' + spec + ' from ' + from);
  return cand;
}

function prim(x) {
  if (x === null) return 'null';
  const t = typeof x;
  if (t === 'object' || t === 'function') return t;
  if (t === 'symbol') return x.toString();
  return t + ':' + String(x);
}

// read every export: no event of the observation itself stays in the trace
function observe(ns, trace) {
  const out = [];
  const tlen = trace.length;
  try {
    const keys = Object.keys(ns).filter((k) => k !== '__esModule').sort();
    for (const k of keys) {
      let d;
      try {
        const v = ns[k];
        if (typeof v === 'function') {
          try { d = 'function:ret:' + prim(v()); } catch (e) { d = 'function:threw:' + errName(e); }
        } else d = prim(v);
      } catch (e) { d = 'threw:' + errName(e); }
      out.push(k + '=' + d);
    }
  } catch (e) { out.push('threw:' + errName(e)); }
  trace.length = tlen;
  return out;
}

async function runGraph(files, entry, opts) {
  const trace = [];
  let err = '';
  let exportsSeen = null;
  const ctx = makeContext(trace);
  const cache = new Map();
  const cjsExports = new Map();
  const cjs = new Set((opts && opts.cjs) || []);
  const nativeRequire = (from) => (spec) => {
    const path = resolveSpec(files, String(spec), from);
    const t = getMod(path);
    if (t.status !== 'evaluated') throw new Error('native require of a module that is not evaluated yet: ' + path);
    return cjs.has(path) ? cjsExports.get(path) : t.namespace;
  };
  if (opts && opts.readExports) ctx.require = nativeRequire(entry);
  const getMod = (path) => {
    if (cache.has(path)) return cache.get(path);
    if (cjs.has(path)) {
      const text = files[path];
      const names = [...new Set([...text.matchAll(/\bexports\.(\w+)\s*=/g)].map((x) => x[1]))].filter((n) => n !== 'default');
      const sm = new vm.SyntheticModule(['default', ...names], function () {
        const fn = vm.runInContext('(function (module, exports, require) {' + text + '\n})', ctx, { filename: path });
        const mod = { exports: {} };
        fn(mod, mod.exports, nativeRequire(path));
        cjsExports.set(path, mod.exports);
        this.setExport('default', mod.exports);
        for (const n of names) this.setExport(n, mod.exports[n]);
      }, { context: ctx, identifier: path });
      cache.set(path, sm);
      return sm;
    }
    const m = new vm.SourceTextModule(files[path], {
      context: ctx, identifier: path,
      importModuleDynamically: async (spec, ref) => {
        const t = getMod(resolveSpec(files, spec, ref.identifier));
        if (t.status === 'unlinked') await t.link(linker);
        if (t.status !== 'evaluated' && t.status !== 'errored') await t.evaluate({ timeout: 30000 });
        if (t.status === 'errored') throw t.error;
        return t;
      },
    });
    cache.set(path, m);
    return m;
  };
  const linker = (spec, ref) => getMod(resolveSpec(files, spec, ref.identifier));
  try {
    const m = getMod(entry);
    await m.link(linker);
    // a module graph without top-level await is evaluated synchronously inside evaluate()
    const done = m.evaluate({ timeout: 30000 });
    if (opts && opts.readExports && m.status === 'evaluated') exportsSeen = observe(m.namespace, trace);
    await done;
  } catch (e) {
    if (isTimeout(e)) return { trace, err: 'timeout', timeout: true };
    trace.push('threw:' + errName(e));
    err = String(e && e.message || e).slice(0, 200);
  }
  await settle();
  return { trace, err, exports: exportsSeen };
}

async function runBundle(b, opts) {
  const trace = [];
  let err = '';
  let exportsSeen = null;
  const read = !!(opts && opts.readExports);
  const ctx = makeContext(trace);
  try {
    if (b.format === 'esm') {
      const m = new vm.SourceTextModule(b.code, {
        context: ctx, identifier: b.name,
        importModuleDynamically: async (spec) => { throw new Error('bundle imports ' + spec + ' at run time'); },
      });
      await m.link((spec) => { throw new Error('bundle has an unresolved import of ' + spec); });
      const done = m.evaluate({ timeout: 30000 });
      if (read && m.status === 'evaluated') exportsSeen = observe(m.namespace, trace);
      await done;
    } else if (b.format === 'cjs') {
      const fn = vm.runInContext('(function (module, exports, require) { "use strict";\n' + b.code + '\n})', ctx, { filename: b.name });
      const mod = { exports: {} };
      fn(mod, mod.exports, (spec) => { throw new Error('bundle requires ' + spec + ' at run time'); });
      if (read) exportsSeen = observe(mod.exports, trace);
    } else {
      vm.runInContext('"use strict";\n' + b.code, ctx, { filename: b.name, timeout: 30000 });
      if (read && opts.globalName) {
        const g = vm.runInContext('typeof ' + opts.globalName + ' === "undefined" ? null : ' + opts.globalName, ctx);
        if (g !== null && g !== undefined) exportsSeen = observe(g, trace);
      }
    }
  } catch (e) {
    if (isTimeout(e)) return { name: b.name, trace, err: 'timeout', timeout: true };
    trace.push('threw:' + errName(e));
    err = String(e && e.message || e).slice(0, 200);
  }
  await settle();
  return { name: b.name, trace, err, exports: exportsSeen };
}

// ---- static scan: identifiers that are referenced but declared nowhere in the program
const PATTERNISH = new Set(['ObjectPattern', 'ArrayPattern', 'AssignmentPattern', 'RestElement', 'Property', 'Identifier']);
function freeIdentifiers(code, format) {
  if (!acorn) return null;
  let ast;
  const opt = { ecmaVersion: 'latest', allowHashBang: true, allowReturnOutsideFunction: true };
  try {
    ast = acorn.parse(code, Object.assign({ sourceType: format === 'esm' ? 'module' : 'script' }, opt));
  } catch (e) {
    try { ast = acorn.parse(code, Object.assign({ sourceType: 'module' }, opt)); } catch (e2) { return { parseError: String(e2.message) }; }
  }
  const declared = new Set(), refs = new Set();
  walk.ancestor(ast, {
    Identifier(n) { refs.add(n.name); },
    VariablePattern(n, _st, anc) {
      // an identifier in binding position: a declaration unless it is the target of an assignment
      let i = anc.length - 2;
      while (i >= 0 && PATTERNISH.has(anc[i].type)) i--;
      const p = i >= 0 ? anc[i] : null;
      if (p && (p.type === 'AssignmentExpression' || p.type === 'UpdateExpression' ||
                ((p.type === 'ForInStatement' || p.type === 'ForOfStatement') && p.left && p.left.type !== 'VariableDeclaration'))) refs.add(n.name);
      else declared.add(n.name);
    },
    ImportSpecifier(n) { declared.add(n.local.name); },
    ImportDefaultSpecifier(n) { declared.add(n.local.name); },
    ImportNamespaceSpecifier(n) { declared.add(n.local.name); },
    ExportNamedDeclaration(n) {
      if (!n.source && n.specifiers) for (const s of n.specifiers) if (s.local && s.local.type === 'Identifier') refs.add(s.local.name);
    },
  });
  declared.add('arguments');
  return { free: [...refs].filter((x) => !declared.has(x)).sort() };
}

let BUILTINS = null;
function builtins() {
  if (BUILTINS) return BUILTINS;
  const ctx = vm.createContext({});
  const names = vm.runInContext('Object.getOwnPropertyNames(globalThis)', ctx);
  BUILTINS = new Set([...names, 'require', 'module', 'exports', 'globalThis', 'undefined', 'P', 'PU', 'PA', 'GP', 'GX', 'console']);
  return BUILTINS;
}

async function runCase(c) {
  const out = { id: c.id };
  if (typeof c.alone === 'string') out.alone = await runGraph({ 'alone.js': c.alone }, 'alone.js');
  if (c.files) {
    out.native = await runGraph(c.files, c.entry, c);
    const inputFree = new Set();
    let scanOK = true;
    for (const p of Object.keys(c.files)) {
      const f = freeIdentifiers(c.files[p], 'esm');
      if (!f || f.parseError) { scanOK = false; continue; }
      for (const x of f.free) inputFree.add(x);
    }
    out.inputFree = [...inputFree].sort();
    out.bundles = [];
    for (const b of c.bundles || []) {
      const r = await runBundle(b, c);
      const f = scanOK ? freeIdentifiers(b.code, b.format) : null;
      if (f && f.parseError) r.parseError = f.parseError;
      r.dangling = f && f.free ? f.free.filter((x) => !inputFree.has(x) && !builtins().has(x)) : [];
      r.scanned = !!(f && f.free);
      out.bundles.push(r);
    }
  }
  return out;
}

async function main() {
  let data = '';
  for await (const chunk of process.stdin) data += chunk;
  const input = JSON.parse(data);
  const results = [];
  for (const c of input.cases) {
    try { results.push(await runCase(c)); } catch (e) { results.push({ id: c.id, fatal: String(e && e.stack || e).slice(0, 500) }); }
  }
  process.stdout.write(JSON.stringify({ results }));
}
main().catch((e) => { process.stderr.write(String(e && e.stack || e)); process.exit(3); });
