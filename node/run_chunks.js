// run_chunks.js: load ES module graphs written to disk (emitted chunks, unsplit
// bundles or the source modules themselves) with Node's native ESM loader and
// report what they do; and analyse emitted chunk files statically with acorn.
//
// stdin : {"jobs":[{"id", "dir", "entries":[rel path...], "sequences":[[entry index...]...],
//                   "names":[entry point i exports the observers peek_<names[i]>, poke_<names[i]>],
//                   "analyze":bool, "nocopy":bool, "publicPath":string}]}
// stdout: {"results":[{"id", "runs":[{"seq", "trace":[[module, effect]...], "errors":[{where,name,message}],
//                                     "after":[{entry, ns, peek}], "poked":[{entry, ns, peek}]}],
//                      "analysis":{"files":[{kind: js|css, file, imports:[{to, path, names}], dyn:[{to, path}], exports:[names],
//                                            assigns:[names], parseError}]}}]}
//
// Module instances must be fresh per sequence: every sequence is loaded from
// its own copy of the directory (the ESM registry is keyed by URL), or, under
// --preserve-symlinks, through its own symbolic link to the directory.
// Module bodies report through globalThis.__probe(module, effect) and register
// the promises of their dynamic imports with globalThis.__track(module, promise).
// Run with: node --expose-internals run_chunks.js
'use strict'
const fs = require('fs')
const path = require('path')
const { pathToFileURL } = require('url')

let acorn = null
try { acorn = require('internal/deps/acorn/acorn/dist/acorn') } catch (e) { acorn = null }

// with --preserve-symlinks the ESM loader does not resolve symbolic links, so a link per sequence gives fresh instances
const PRESERVE = process.execArgv.includes('--preserve-symlinks')

let current = null // the run that receives probes and errors
process.on('unhandledRejection', (e) => {
  if (current) current.errors.push({ where: 'unhandledRejection', name: String(e && e.name), message: String(e && e.message) })
})
process.on('uncaughtException', (e) => {
  if (current) current.errors.push({ where: 'uncaughtException', name: String(e && e.name), message: String(e && e.message) })
})

function snapshotValue(v) {
  if (typeof v === 'function') return 'fn'
  if (v === undefined) return 'undefined'
  if (typeof v === 'number' && !Number.isFinite(v)) return String(v)
  return v
}

// every exported binding of a namespace is read; a namespace object found inside (export * as ns) is read in turn
function snapshotNS(run, where, ns, depth) {
  const out = {}
  let keys = []
  try { keys = Object.keys(ns).sort() } catch (e) {
    run.errors.push({ where: where + ':keys', name: String(e && e.name), message: String(e && e.message) })
  }
  for (const key of keys) {
    try {
      const v = ns[key]
      if (v !== null && typeof v === 'object' && depth < 6) out[key] = snapshotNS(run, where + ':' + key, v, depth + 1)
      else out[key] = snapshotValue(v)
    } catch (e) {
      out[key] = 'threw'
      run.errors.push({ where: where + ':' + key, name: String(e && e.name), message: String(e && e.message) })
    }
  }
  return out
}

function snapshot(run, loaded, job) {
  const out = []
  for (const [ei, ns] of loaded) {
    const rec = { entry: ei, ns: snapshotNS(run, 'ns:' + ei, ns, 0), peek: null }
    const peek = ns['peek_' + (job.names || [])[ei]]
    if (typeof peek === 'function') {
      try { rec.peek = peek() } catch (e) {
        run.errors.push({ where: 'peek:' + ei, name: String(e && e.name), message: String(e && e.message) })
      }
    }
    out.push(rec)
  }
  return out
}

async function settle(run) {
  // wait until no tracked promise is pending and no new one was registered meanwhile
  for (let round = 0; round < 50; round++) {
    const n = run.tracked.length
    await Promise.all(run.tracked)
    await new Promise((resolve) => setImmediate(resolve))
    if (run.tracked.length === n) return
  }
  run.errors.push({ where: 'settle', name: 'Error', message: 'dynamic imports did not settle' })
}

async function runSequence(job, seq, k) {
  let dir = job.dir
  let linked = false
  if (!job.nocopy) {
    dir = job.dir + '.seq' + k
    if (PRESERVE) {
      // a symbolic link to the directory is as good as a copy when the loader keys modules by the unresolved path
      try { fs.symlinkSync(job.dir, dir); linked = true } catch (e) { linked = false }
    }
    if (!linked) fs.cpSync(job.dir, dir, { recursive: true })
  }
  const run = { seq, trace: [], errors: [], tracked: [], after: [], poked: [] }
  current = run
  globalThis.__probe = (m, s) => { run.trace.push([String(m), String(s)]) }
  globalThis.__track = (m, p) => {
    run.tracked.push(Promise.resolve(p).then(() => { }, (e) => {
      run.errors.push({ where: 'dyn:' + m, name: String(e && e.name), message: String(e && e.message) })
    }))
  }
  const loaded = []
  for (const ei of seq) {
    try {
      const ns = await import(pathToFileURL(path.join(dir, job.entries[ei])).href)
      loaded.push([ei, ns])
    } catch (e) {
      run.errors.push({ where: 'load:' + ei, name: String(e && e.name), message: String(e && e.message) })
    }
  }
  await settle(run)
  run.after = snapshot(run, loaded, job)
  for (const [ei, ns] of loaded) {
    const poke = ns['poke_' + (job.names || [])[ei]]
    if (typeof poke === 'function') {
      try { poke() } catch (e) {
        run.errors.push({ where: 'poke:' + ei, name: String(e && e.name), message: String(e && e.message) })
      }
    }
  }
  run.poked = snapshot(run, loaded, job)
  await settle(run)
  current = null
  delete run.tracked
  if (!job.nocopy) {
    try { if (linked) fs.unlinkSync(dir); else fs.rmSync(dir, { recursive: true, force: true }) } catch (e) { }
  }
  return run
}

// ---------------------------------------------------------------------------
// static analysis of emitted files

function listJS(dir, rel, out) {
  for (const ent of fs.readdirSync(path.join(dir, rel), { withFileTypes: true })) {
    const r = rel ? rel + '/' + ent.name : ent.name
    if (ent.isDirectory()) listJS(dir, r, out)
    else if (/\.(js|mjs|css)$/.test(ent.name)) out.push(r)
  }
  return out
}

function patternNames(p, out) {
  if (!p) return
  switch (p.type) {
    case 'Identifier': out.push(p.name); break
    case 'ObjectPattern': for (const q of p.properties) patternNames(q.type === 'RestElement' ? q.argument : q.value, out); break
    case 'ArrayPattern': for (const q of p.elements) patternNames(q, out); break
    case 'RestElement': patternNames(p.argument, out); break
    case 'AssignmentPattern': patternNames(p.left, out); break
  }
}

// names declared with `var` (or as function declarations in sloppy position) inside a function body, not descending into nested functions
function collectVars(node, out) {
  if (!node || typeof node.type !== 'string') return
  switch (node.type) {
    case 'FunctionDeclaration': case 'FunctionExpression': case 'ArrowFunctionExpression': case 'ClassDeclaration': case 'ClassExpression':
      return
    case 'VariableDeclaration':
      if (node.kind === 'var') for (const d of node.declarations) patternNames(d.id, out)
      break
  }
  for (const key of Object.keys(node)) {
    const v = node[key]
    if (Array.isArray(v)) { for (const c of v) if (c && typeof c.type === 'string') collectVars(c, out) } else if (v && typeof v.type === 'string') collectVars(v, out)
  }
}

function blockDecls(stmts, out) {
  for (const s of stmts) {
    if (!s) continue
    if (s.type === 'VariableDeclaration' && s.kind !== 'var') for (const d of s.declarations) patternNames(d.id, out)
    else if (s.type === 'FunctionDeclaration' || s.type === 'ClassDeclaration') { if (s.id) out.push(s.id.name) }
  }
}

// names assigned (=, op=, ++, --, for-in/of targets) that resolve to one of `imported` (a Set of module-level import locals)
function assignedImports(ast, imported) {
  const hits = new Set()
  const scopes = [] // inner scopes only; module-level declarations other than imports cannot share a name with an import
  const shadowed = (name) => scopes.some((s) => s.has(name))
  const target = (p) => {
    const names = []
    patternNames(p, names)
    for (const n of names) if (imported.has(n) && !shadowed(n)) hits.add(n)
  }
  const visit = (node) => {
    if (!node || typeof node.type !== 'string') return
    let pushed = false
    switch (node.type) {
      case 'FunctionDeclaration': case 'FunctionExpression': case 'ArrowFunctionExpression': {
        const names = []
        for (const p of node.params) patternNames(p, names)
        if (node.type === 'FunctionExpression' && node.id) names.push(node.id.name)
        collectVars(node.body, names)
        if (node.body.type === 'BlockStatement') blockDecls(node.body.body, names)
        scopes.push(new Set(names)); pushed = true
        break
      }
      case 'BlockStatement': case 'StaticBlock': {
        const names = []; blockDecls(node.body, names); scopes.push(new Set(names)); pushed = true; break
      }
      case 'SwitchStatement': {
        const names = []; for (const c of node.cases) blockDecls(c.consequent, names); scopes.push(new Set(names)); pushed = true; break
      }
      case 'ForStatement': case 'ForInStatement': case 'ForOfStatement': {
        const names = []
        const init = node.type === 'ForStatement' ? node.init : node.left
        if (init && init.type === 'VariableDeclaration' && init.kind !== 'var') for (const d of init.declarations) patternNames(d.id, names)
        scopes.push(new Set(names)); pushed = true
        if (node.type !== 'ForStatement' && node.left.type !== 'VariableDeclaration') target(node.left)
        break
      }
      case 'CatchClause': {
        const names = []; patternNames(node.param, names); scopes.push(new Set(names)); pushed = true; break
      }
      case 'ClassDeclaration': case 'ClassExpression': {
        scopes.push(new Set(node.id ? [node.id.name] : [])); pushed = true; break
      }
      case 'AssignmentExpression': target(node.left); break
      case 'UpdateExpression': target(node.argument); break
    }
    for (const key of Object.keys(node)) {
      const v = node[key]
      if (Array.isArray(v)) { for (const c of v) if (c && typeof c.type === 'string') visit(c) } else if (v && typeof v.type === 'string') visit(v)
    }
    if (pushed) scopes.pop()
  }
  // module-level var/function declarations inside nested blocks hoist to module level and cannot clash with imports (SyntaxError otherwise)
  visit(ast)
  return [...hits].sort()
}

function collectDynamic(node, out) {
  if (!node || typeof node.type !== 'string') return
  if (node.type === 'ImportExpression') {
    const s = node.source
    if (s.type === 'Literal' && typeof s.value === 'string') out.push(s.value)
    else if (s.type === 'TemplateLiteral' && s.expressions.length === 0) out.push(s.quasis[0].value.cooked)
    else out.push(null)
  }
  for (const key of Object.keys(node)) {
    const v = node[key]
    if (Array.isArray(v)) { for (const c of v) if (c && typeof c.type === 'string') collectDynamic(c, out) } else if (v && typeof v.type === 'string') collectDynamic(v, out)
  }
}

function analyze(job) {
  if (!acorn) return { error: 'acorn not available (run node with --expose-internals)' }
  const files = listJS(job.dir, '', []).sort()
  const known = new Set(files)
  const pub = job.publicPath || ''
  const resolve = (from, spec) => {
    if (spec === null) return null
    let rel
    if (pub && spec.startsWith(pub)) rel = path.posix.normalize(spec.slice(pub.length).replace(/^\/+/, ''))
    else if (spec.startsWith('./') || spec.startsWith('../')) rel = path.posix.normalize(path.posix.join(path.posix.dirname(from), spec))
    else return null
    return known.has(rel) ? rel : null
  }
  const out = []
  for (const file of files) {
    const rec = { kind: 'js', file, imports: [], dyn: [], exports: [], assigns: [], parseError: '' }
    if (/\.css$/.test(file)) { rec.kind = 'css'; out.push(rec); continue } // a style sheet: a chunk that imports and exports nothing
    let ast
    try {
      ast = acorn.parse(fs.readFileSync(path.join(job.dir, file), 'utf8'), { ecmaVersion: 'latest', sourceType: 'module' })
    } catch (e) {
      rec.parseError = String(e && e.message)
      out.push(rec)
      continue
    }
    const imported = new Set()
    for (const s of ast.body) {
      if (s.type === 'ImportDeclaration') {
        const names = []
        for (const sp of s.specifiers) {
          imported.add(sp.local.name)
          if (sp.type === 'ImportSpecifier') names.push(sp.imported.type === 'Identifier' ? sp.imported.name : String(sp.imported.value))
          else if (sp.type === 'ImportDefaultSpecifier') names.push('default')
          else names.push('*')
        }
        rec.imports.push({ to: resolve(file, s.source.value), path: s.source.value, names })
      } else if (s.type === 'ExportNamedDeclaration') {
        if (s.source) {
          const names = []
          for (const sp of s.specifiers) {
            names.push(sp.local.type === 'Identifier' ? sp.local.name : String(sp.local.value))
            rec.exports.push(sp.exported.type === 'Identifier' ? sp.exported.name : String(sp.exported.value))
          }
          rec.imports.push({ to: resolve(file, s.source.value), path: s.source.value, names })
        } else if (s.declaration) {
          const names = []
          if (s.declaration.type === 'VariableDeclaration') for (const d of s.declaration.declarations) patternNames(d.id, names)
          else if (s.declaration.id) names.push(s.declaration.id.name)
          rec.exports.push(...names)
        } else {
          for (const sp of s.specifiers) rec.exports.push(sp.exported.type === 'Identifier' ? sp.exported.name : String(sp.exported.value))
        }
      } else if (s.type === 'ExportDefaultDeclaration') {
        rec.exports.push('default')
      } else if (s.type === 'ExportAllDeclaration') {
        rec.imports.push({ to: resolve(file, s.source.value), path: s.source.value, names: ['*'] })
        if (s.exported) rec.exports.push(s.exported.type === 'Identifier' ? s.exported.name : String(s.exported.value))
      }
    }
    const dyn = []
    collectDynamic(ast, dyn)
    for (const spec of dyn) rec.dyn.push({ to: resolve(file, spec), path: spec === null ? '' : spec })
    rec.assigns = assignedImports(ast, imported)
    out.push(rec)
  }
  return { files: out }
}

async function main() {
  const input = JSON.parse(fs.readFileSync(0, 'utf8'))
  const results = []
  for (const job of input.jobs) {
    const res = { id: job.id, runs: [], analysis: null }
    if (job.analyze) {
      try { res.analysis = analyze(job) } catch (e) { res.analysis = { error: String(e && e.stack) } }
    }
    let k = 0
    for (const seq of job.sequences || []) {
      res.runs.push(await runSequence(job, seq, k++))
    }
    results.push(res)
  }
  process.stdout.write(JSON.stringify({ results }))
}

main().catch((e) => { process.stderr.write(String(e && e.stack) + '\n'); process.exit(3) })
