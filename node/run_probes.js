// run_probes.js -- C03 probe runner (Node 20, no packages).
// stdin: JSON {budget, vals:[value], objs:{id:{kind,v}}, envSets:{name:[env]}, jobs:[job]}
//   value  = the JsFold record {t, sg, m (little-endian bits), s (code units)}
//   env    = {p:[valIdx per probe number (index 0 unused)], a, b: valIdx, G: valIdx|-1 (undeclared), ok: valIdx|-1 (o.k absent)}
//   job    = {id, srcs:[script text; srcs[0] is the input program], units:[unit]}: the script only DEFINES things
//             (functions main<k>, variables x<k>); it is run once per fresh context, then every unit is run per env
//   unit   = {id, call: "expression evaluated in the context (e.g. main3(__env.a, __env.b))", envSet: name,
//             noG / noO: the program text mentions neither G / o (skip declaring G / resetting the recorder),
//             want: [env indices whose input trace is returned] | "all",
//             tol: bool (numeric completions of ** may differ by a few ulp)}
// Every script runs in a FRESH vm context whose globals are
//   p(i)   side-effect probe: records "p(i)" and returns env.p[i]; the BUDGET-th call throws a Budget error
//   o      recorder object (Proxy): records get:/set:/del:/has: with Object.is-precise values
//   G      present or absent (undeclared) per env;   __env = {a, b}
//   f(...) records "f(args)" and returns its first argument; console.log(...) records; DEF is never declared
// Objects of the grid: plain {}, objects whose valueOf records "valueOf#id", objects whose toString records "toString#id".
// stdout: JSON {results:[{id, errors:[{variant, error}], units:[{id, traces:{envIdx: trace}, mismatches:[{variant, env, input, output}], nmis, nenv}]}]}
'use strict';
const vm = require('vm');
const fs = require('fs');

const input = JSON.parse(fs.readFileSync(0, 'utf8'));
input.vals = input.vals || []; input.objs = input.objs || {};
const BUDGET = input.budget || 16;
const MAXMIS = input.maxMismatches || 3;

function nat(m) { let r = 0n; for (let i = m.length - 1; i >= 0; i--) r = r * 2n + BigInt(m[i]); return r; }

class Budget { constructor() { this.budget = true; } }

// ---- recording state (one run at a time) ----
let trace = [];
let calls = 0;
let cur = null;           // current decoded env
const tags = new WeakMap();

function ser(v) {
  switch (typeof v) {
    case 'undefined': return 'undefined';
    case 'boolean': return String(v);
    case 'number':
      if (Object.is(v, -0)) return '-0';
      if (Number.isInteger(v)) return BigInt(v).toString();
      return String(v);
    case 'bigint': return v.toString() + 'n';
    case 'string': return JSON.stringify(v);
    case 'symbol': return 'symbol:' + String(v.description);
    case 'function': return tags.get(v) || 'function';
    default:
      if (v === null) return 'null';
      if (tags.has(v)) return tags.get(v);
      if (v instanceof Budget) return 'Budget';
      if (Object.prototype.toString.call(v) === '[object Error]') return String(v.name);
      if (Array.isArray(v)) return '[' + v.map(ser).join(',') + ']';
      return 'object';
  }
}

function keyStr(k) { return typeof k === 'symbol' ? '@@' + String(k.description) : JSON.stringify(k); }

function decode(vi) {          // value index -> fresh JS value for this env (objects are per env)
  const v = input.vals[vi];
  switch (v.t) {
    case 'undef': return undefined;
    case 'null': return null;
    case 'bool': return v.sg === 1;
    case 'int': { const n = Number(nat(v.m)); return v.sg === -1 ? -n : n; }
    case 'nzero': return -0;
    case 'nan': return NaN;
    case 'pinf': return Infinity;
    case 'ninf': return -Infinity;
    case 'str': return String.fromCharCode(...v.s);
    case 'big': { const n = nat(v.m); return v.sg === -1 ? -n : n; }
    case 'obj': return objectOf(v.sg);
    default: throw new Error('cannot decode value of type ' + v.t);
  }
}

let envObjs = null;
function objectOf(id) {
  if (envObjs.has(id)) return envObjs.get(id);
  const d = input.objs[String(id)];
  let ob;
  if (!d || d.kind === 'plain') ob = {};
  else if (d.kind === 'valueOf') {
    const prim = decodeStatic(d.v);
    ob = { valueOf() { trace.push('valueOf#' + id); return prim; } };
  } else if (d.kind === 'toString') {          // own toString (recorded), inherited valueOf
    const prim = decodeStatic(d.v);
    ob = { toString() { trace.push('toString#' + id); return prim; } };
  } else throw new Error('unknown object kind ' + d.kind);
  tags.set(ob, 'obj#' + id);
  envObjs.set(id, ob);
  return ob;
}
function decodeStatic(v) {     // a primitive given inline
  const save = input.vals; input.vals = [v];
  try { return decode(0); } finally { input.vals = save; }
}

// decoded environments are shared by all runs: the grid objects are immutable for the
// generated programs (no program writes to a property of a parameter or probe value)
const envCache = new Map();
function makeEnv(e) {
  let d = envCache.get(e);
  if (d === undefined) { d = makeEnv1(e); envCache.set(e, d); }
  return d;
}
function makeEnv1(e) {
  envObjs = new Map();
  const d = { p: [], a: undefined, b: undefined, hasG: false, G: undefined, o: {} };
  for (let i = 1; i < e.p.length; i++) d.p[i] = decode(e.p[i]);
  if (e.a !== undefined && e.a >= 0) d.a = decode(e.a);
  if (e.b !== undefined && e.b >= 0) d.b = decode(e.b);
  if (e.G !== undefined && e.G >= 0) { d.hasG = true; d.G = decode(e.G); }
  if (e.ok !== undefined && e.ok >= 0) d.o.k = decode(e.ok);
  return d;
}

function probe(i) {
  calls++;
  trace.push(arguments.length === 1 ? 'p(' + ser(i) + ')' : 'p(' + Array.prototype.map.call(arguments, ser).join(',') + ')');
  if (calls >= BUDGET) throw new Budget();
  return cur.p[i];
}
tags.set(probe, 'fn:p');
// host functions of the define/pure/drop family
function hostF() { trace.push('f(' + Array.prototype.map.call(arguments, ser).join(',') + ')'); return arguments[0]; }
const hostConsole = { log() { trace.push('console.log(' + Array.prototype.map.call(arguments, ser).join(',') + ')'); } };
tags.set(hostF, 'fn:f');

function makeRecorder() {
  let store = {};
  const target = {};
  const prox = new Proxy(target, {
    get(t, k) { trace.push('get:' + keyStr(k)); return typeof k === 'symbol' ? undefined : store[k]; },
    set(t, k, v) { trace.push('set:' + keyStr(k) + '=' + ser(v)); store[k] = v; return true; },
    has(t, k) { trace.push('has:' + keyStr(k)); return k in store; },
    deleteProperty(t, k) { trace.push('del:' + keyStr(k)); delete store[k]; return true; },
  });
  tags.set(prox, 'rec');
  return { prox, reset(init) { store = Object.assign(Object.create(null), init); } };
}

function completion(fn) {
  try { return 'ret:' + ser(fn()); }
  catch (e) {
    if (e instanceof Budget) return 'throw:Budget';
    if (e !== null && typeof e === 'object' && Object.prototype.toString.call(e) === '[object Error]') return 'throw:' + e.name;
    return 'throw:' + ser(e);
  }
}

// numeric tolerance for ** (finite results are implementation-approximated)
function closeEnough(a, b) {
  const ma = /^(.*\|)ret:(-?[0-9.e+]+)$/.exec(a), mb = /^(.*\|)ret:(-?[0-9.e+]+)$/.exec(b);
  if (!ma || !mb || ma[1] !== mb[1]) return false;
  const x = Number(ma[2]), y = Number(mb[2]);
  if (!isFinite(x) || !isFinite(y) || x === 0 || y === 0) return false;
  return Math.abs(x - y) <= 4 * Number.EPSILON * Math.max(Math.abs(x), Math.abs(y));
}

const NOENV = [{ p: [] }];
function envsOf(unit) { return (input.envSets || {})[unit.envSet] || NOENV; }

function runVariant(job, src) {
  const rec = makeRecorder();
  const sandbox = { p: probe, o: rec.prox, f: hostF, console: hostConsole };
  const ctx = vm.createContext(sandbox);
  // __env lives inside the context; the runner mutates its fields (no contextified-global traffic per run)
  const envObj = vm.runInContext('globalThis.__env = {a: undefined, b: undefined}', ctx);
  let script;
  try { script = new vm.Script(src, { filename: 'prog.js' }); }
  catch (e) { return { error: 'compile: ' + String(e && e.message) }; }
  cur = { p: [], o: {} }; trace = []; calls = 0;
  try { script.runInContext(ctx); }
  catch (e) { return { error: 'setup: ' + String(e && e.message) }; }
  if (trace.length) return { error: 'setup ran probes: ' + trace.join(';') };
  const out = [];
  let gDeclared = false;
  for (const unit of job.units) {
    let callFn;
    try { callFn = vm.runInContext('(function(){ return (' + unit.call + '); })', ctx, { filename: 'call.js' }); }
    catch (e) { out.push({ error: 'call: ' + String(e && e.message) }); continue; }
    const envs = envsOf(unit);
    const tr = new Array(envs.length);
    // unit.noG / unit.noO: the program text mentions neither G nor o (the harness checked), so
    // declaring G / resetting the recorder cannot be observed
    const useG = !unit.noG, useO = !unit.noO;
    for (let i = 0; i < envs.length; i++) {
      cur = makeEnv(envs[i]);
      trace = []; calls = 0;
      if (useO) rec.reset(cur.o);
      envObj.a = cur.a; envObj.b = cur.b;
      if (useG) {
        if (cur.hasG) { sandbox.G = cur.G; gDeclared = true; }
        else if (gDeclared) { delete sandbox.G; gDeclared = false; }
      }
      const c = completion(callFn);
      tr[i] = trace.join(';') + '|' + c;
    }
    if (gDeclared) { delete sandbox.G; gDeclared = false; }
    out.push({ traces: tr });
  }
  return { units: out };
}

const results = [];
for (const job of input.jobs) {
  const res = { id: job.id, errors: [], units: [] };
  const base = runVariant(job, job.srcs[0]);
  if (base.error) { res.errors.push({ variant: 0, error: base.error }); results.push(res); continue; }
  job.units.forEach((unit, u) => {
    const ur = { id: unit.id, traces: {}, mismatches: [], nmis: 0, nenv: envsOf(unit).length };
    const b = base.units[u];
    if (b.error) { res.errors.push({ variant: 0, unit: unit.id, error: b.error }); }
    else {
      const want = unit.want === 'all' ? b.traces.map((_, i) => i) : (unit.want || []);
      for (const i of want) ur.traces[i] = b.traces[i];
    }
    res.units.push(ur);
  });
  for (let v = 1; v < job.srcs.length; v++) {
    const r = runVariant(job, job.srcs[v]);
    if (r.error) { res.errors.push({ variant: v, error: r.error }); continue; }
    job.units.forEach((unit, u) => {
      const b = base.units[u], o = r.units[u], ur = res.units[u];
      if (b.error) return;
      if (o.error) { res.errors.push({ variant: v, unit: unit.id, error: o.error }); return; }
      // report the environments the specification evaluated (unit.want) first
      const bad = [];
      for (let i = 0; i < b.traces.length; i++) {
        if (o.traces[i] !== b.traces[i]) {
          if (unit.tol && closeEnough(o.traces[i], b.traces[i])) continue;
          ur.nmis++;
          bad.push(i);
        }
      }
      if (bad.length) {
        const wanted = Array.isArray(unit.want) ? new Set(unit.want) : null;
        const order = wanted ? bad.filter(i => wanted.has(i)).concat(bad.filter(i => !wanted.has(i))) : bad;
        for (const i of order.slice(0, MAXMIS)) ur.mismatches.push({ variant: v, env: i, input: b.traces[i], output: o.traces[i] });
      }
    });
  }
  results.push(res);
}
process.stdout.write(JSON.stringify({ results }));
